package mock

import (
	"errors"
	"net"
	"sync"
	"time"
)

// TEvent is one call the channel made on the transport.
type TEvent struct {
	Kind  string   `json:"kind"` // write | writev | flush | close
	Bufs  [][]byte `json:"-"`
	Bytes int      `json:"bytes,omitempty"`
	Err   bool     `json:"err,omitempty"`
}

var ErrTransport = errors.New("scripted transport write failure")

type addr struct{}

func (addr) Network() string { return "mock" }
func (addr) String() string  { return "mock:0" }

// Transport records every call; optional failure injection and a scheduler
// yield before each operation.
type Transport struct {
	mu          sync.Mutex
	Log         []TEvent
	Writes      int // Write+Writev calls so far
	Flushes     int
	FailWrite   int // fail the k-th Write/Writev (1-based), 0 = never
	FailFlush   int
	Closed      int
	Reader      *ScriptReader
	ReadGate    chan struct{} // if non-nil, Read blocks until the gate is closed, then reports EOF
	SplitWritev bool          // Writev hands the buffers to the wire one by one, yielding in between (needs Yield)
	Yield       func(point string)
	OnEvent     func(kind string) // called (outside the lock) after each accepted write / close
}

func (t *Transport) yield(p string) {
	if t.Yield != nil {
		t.Yield(p)
	}
}

func (t *Transport) Read(p []byte) (int, error) {
	t.yield("t.read")
	if t.Reader != nil {
		return t.Reader.Read(p)
	}
	if t.ReadGate != nil {
		<-t.ReadGate
	}
	return 0, net.ErrClosed
}

func (t *Transport) Write(p []byte) (int, error) {
	t.yield("t.write")
	t.mu.Lock()
	defer t.mu.Unlock()
	t.Writes++
	if t.Closed > 0 || t.Writes == t.FailWrite {
		t.Log = append(t.Log, TEvent{Kind: "write", Err: true})
		return 0, ErrTransport
	}
	t.Log = append(t.Log, TEvent{Kind: "write", Bufs: [][]byte{append([]byte(nil), p...)}, Bytes: len(p)})
	if t.OnEvent != nil {
		t.OnEvent("write")
	}
	return len(p), nil
}

func (t *Transport) Writev(bs net.Buffers) (int64, error) {
	t.yield("t.writev")
	if t.SplitWritev && len(bs) > 1 {
		// a connection whose vectored write is NOT one atomic operation (any non-TCP net.Conn, a buffered writer): one
		// buffer after the other, other goroutines may run in between.  Continuations are logged as "writev+".
		var n int64
		for i, b := range bs {
			if i > 0 {
				t.yield("t.writev.part")
			}
			t.mu.Lock()
			if i == 0 {
				t.Writes++
			}
			if t.Closed > 0 || (i == 0 && t.Writes == t.FailWrite) {
				t.Log = append(t.Log, TEvent{Kind: "writev", Err: true})
				t.mu.Unlock()
				return n, ErrTransport
			}
			kind := "writev"
			if i > 0 {
				kind = "writev+"
			}
			t.Log = append(t.Log, TEvent{Kind: kind, Bufs: [][]byte{append([]byte(nil), b...)}, Bytes: len(b)})
			t.mu.Unlock()
			n += int64(len(b))
		}
		if t.OnEvent != nil {
			t.OnEvent("write")
		}
		return n, nil
	}
	t.mu.Lock()
	defer t.mu.Unlock()
	t.Writes++
	if t.Closed > 0 || t.Writes == t.FailWrite {
		t.Log = append(t.Log, TEvent{Kind: "writev", Err: true})
		return 0, ErrTransport
	}
	ev := TEvent{Kind: "writev"}
	for _, b := range bs {
		ev.Bufs = append(ev.Bufs, append([]byte(nil), b...))
		ev.Bytes += len(b)
	}
	t.Log = append(t.Log, ev)
	if t.OnEvent != nil {
		t.OnEvent("write")
	}
	return int64(ev.Bytes), nil
}

func (t *Transport) Flush() error {
	t.yield("t.flush")
	t.mu.Lock()
	defer t.mu.Unlock()
	t.Flushes++
	if t.Closed > 0 || t.Flushes == t.FailFlush {
		t.Log = append(t.Log, TEvent{Kind: "flush", Err: true})
		return ErrTransport
	}
	t.Log = append(t.Log, TEvent{Kind: "flush"})
	return nil
}

func (t *Transport) Close() error {
	t.yield("t.close")
	t.mu.Lock()
	defer t.mu.Unlock()
	t.Closed++
	t.Log = append(t.Log, TEvent{Kind: "close"})
	if t.OnEvent != nil {
		t.OnEvent("close")
	}
	if t.ReadGate != nil && t.Closed == 1 {
		close(t.ReadGate)
	}
	return nil
}

// Sent returns all bytes accepted so far, in order.
func (t *Transport) Sent() []byte {
	t.mu.Lock()
	defer t.mu.Unlock()
	var out []byte
	for _, e := range t.Log {
		for _, b := range e.Bufs {
			out = append(out, b...)
		}
	}
	return out
}

// Snapshot copies the log.
func (t *Transport) Snapshot() []TEvent {
	t.mu.Lock()
	defer t.mu.Unlock()
	return append([]TEvent(nil), t.Log...)
}

func (t *Transport) LocalAddr() net.Addr              { return addr{} }
func (t *Transport) RemoteAddr() net.Addr             { return addr{} }
func (t *Transport) SetDeadline(time.Time) error      { return nil }
func (t *Transport) SetReadDeadline(time.Time) error  { return nil }
func (t *Transport) SetWriteDeadline(time.Time) error { return nil }
func (t *Transport) RawTransport() interface{}        { return t }

// Inline runs executor actions on the caller's goroutine.
type Inline struct{}

func (Inline) Exec(f func()) { f() }

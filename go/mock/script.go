// Package mock holds harness-side stand-ins for the interfaces go-netty
// consumes: scripted readers, handler contexts, transports.
package mock

import (
	"errors"
	"io"

	netty "github.com/go-netty/go-netty"
)

// ErrScript is the non-EOF failure a script can end with.
var ErrScript = errors.New("scripted transport failure")

// ScriptReader is the mirror image of coq/Base/Reader.v `script`: each chunk
// is what the next Read may return at most; then Final applies.
type ScriptReader struct {
	Chunks  [][]byte
	Final   string // "eof" | "dataeof" | "err"
	FinData []byte
	// observation
	Pulled int  // bytes handed out so far
	SawEnd bool // a Read reported EOF or an error
	Reads  int
}

func (s *ScriptReader) Read(p []byte) (int, error) {
	s.Reads++
	if len(p) == 0 {
		return 0, nil
	}
	if len(s.Chunks) > 0 {
		c := s.Chunks[0]
		if len(c) <= len(p) {
			copy(p, c)
			s.Chunks = s.Chunks[1:]
			s.Pulled += len(c)
			return len(c), nil
		}
		copy(p, c[:len(p)])
		s.Chunks[0] = c[len(p):]
		s.Pulled += len(p)
		return len(p), nil
	}
	switch s.Final {
	case "err":
		s.SawEnd = true
		return 0, ErrScript
	case "dataeof":
		d := s.FinData
		if len(d) <= len(p) {
			copy(p, d)
			s.Final, s.FinData = "eof", nil
			s.Pulled += len(d)
			s.SawEnd = true
			return len(d), io.EOF
		}
		copy(p, d[:len(p)])
		s.FinData = d[len(p):]
		s.Pulled += len(p)
		return len(p), nil
	}
	s.SawEnd = true
	return 0, io.EOF
}

// Ctx is a handler context that records what a codec hands on.
type Ctx struct {
	Reads      []netty.Message
	Writes     []netty.Message
	OnRead     func(netty.Message)
	OnWrite    func(netty.Message)
	Ch         netty.Channel
	attachment netty.Attachment
}

func (c *Ctx) Channel() netty.Channel           { return c.Ch }
func (c *Ctx) Handler() netty.Handler           { return nil }
func (c *Ctx) Write(m netty.Message)            { c.HandleWrite(m) }
func (c *Ctx) Trigger(netty.Event)              {}
func (c *Ctx) Close(error)                      {}
func (c *Ctx) Attachment() netty.Attachment     { return c.attachment }
func (c *Ctx) SetAttachment(a netty.Attachment) { c.attachment = a }
func (c *Ctx) HandleRead(m netty.Message) {
	c.Reads = append(c.Reads, m)
	if c.OnRead != nil {
		c.OnRead(m)
	}
}
func (c *Ctx) HandleWrite(m netty.Message) {
	c.Writes = append(c.Writes, m)
	if c.OnWrite != nil {
		c.OnWrite(m)
	}
}

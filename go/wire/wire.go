// Package wire: compact byte strings and scripted streams shared between the
// harnesses and the Coq case files (coq/Model/FrameCheck.v piece / mk_script).
package wire

import (
	"fmt"

	"verifharness/hx"
	"verifharness/mock"
)

type Piece struct {
	Lit     []byte `json:"lit,omitempty"`
	A, B, N int
}

func (p Piece) Bytes() []byte {
	if p.N == 0 {
		return p.Lit
	}
	out := make([]byte, p.N)
	for i := range out {
		out[i] = byte((p.A + i*p.B) % 256)
	}
	return out
}
func (p Piece) Coq() string {
	if p.N == 0 {
		return "PL " + hx.BytesN(p.Lit)
	}
	return fmt.Sprintf("PGen %d %d %d", p.A, p.B, p.N)
}
func Cat(ps []Piece) []byte {
	var out []byte
	for _, p := range ps {
		out = append(out, p.Bytes()...)
	}
	return out
}
func Payload(rng *hx.Rng, n int) Piece {
	if n <= 24 {
		return Piece{Lit: rng.Bytes(n)}
	}
	return Piece{A: rng.Intn(256), B: 1 + rng.Intn(255), N: n}
}
func CoqPieces(ps []Piece) string {
	xs := make([]string, len(ps))
	for i := range ps {
		xs[i] = ps[i].Coq()
	}
	return hx.List(xs)
}

// Digest is the Adler-style digest also computed by FrameCheck.digest.
func Digest(b []byte) (int, int) {
	s1, s2 := 1, 0
	for _, c := range b {
		s1 = (s1 + int(c)) % 65521
		s2 = (s2 + s1) % 65521
	}
	return len(b), s1 + 65536*s2
}
func DgCoq(b []byte) string {
	n, g := Digest(b)
	return fmt.Sprintf("(%d, %d)", n, g)
}

// Script describes a reader: the wire bytes, where the reads are cut, how it ends.
type Script struct {
	Wire []Piece `json:"wire"`
	Cuts []int   `json:"cuts"`
	Fin  string  `json:"fin"` // eof | dataeof | err
	K    int     `json:"k"`   // dataeof: the last K bytes arrive together with EOF
}

func (s Script) Reader() *mock.ScriptReader {
	w := Cat(s.Wire)
	sr := &mock.ScriptReader{Final: s.Fin}
	body := w
	if s.Fin == "dataeof" {
		body = w[:len(w)-s.K]
		sr.FinData = append([]byte(nil), w[len(w)-s.K:]...)
	}
	rest := body
	for _, c := range s.Cuts {
		if c > len(rest) {
			c = len(rest)
		}
		sr.Chunks = append(sr.Chunks, append([]byte(nil), rest[:c]...))
		rest = rest[c:]
	}
	if len(rest) > 0 {
		sr.Chunks = append(sr.Chunks, append([]byte(nil), rest...))
	}
	return sr
}
func (s Script) FinCoq() string {
	switch s.Fin {
	case "err":
		return "SErr"
	case "dataeof":
		return fmt.Sprintf("(SDataEOF %d)", s.K)
	}
	return "SEOF"
}
func (s Script) CutsCoq() string {
	cs := make([]string, len(s.Cuts))
	for i := range s.Cuts {
		cs[i] = fmt.Sprint(s.Cuts[i])
	}
	return hx.List(cs)
}

// GenCuts draws a fragmentation of n bytes.
func GenCuts(rng *hx.Rng, n int, meta *hx.Meta) []int {
	var cuts []int
	mode := rng.Intn(6)
	meta.Count("fragmentation", []string{"whole", "1-byte", "random-small", "random-large", "with-empty-reads", "around-1024"}[mode])
	switch mode {
	case 0:
		return nil
	case 1:
		lim := n
		if lim > 300 {
			lim = 300
		}
		for i := 0; i < lim; i++ {
			cuts = append(cuts, 1)
		}
	case 2, 4:
		for left := n; left > 0 && len(cuts) < 400; {
			c := 1 + rng.Intn(5)
			if mode == 4 && rng.Chance(25) {
				c = 0
			}
			cuts = append(cuts, c)
			left -= c
		}
	case 3:
		for left := n; left > 0; {
			c := 1 + rng.Intn(3000)
			cuts = append(cuts, c)
			left -= c
		}
	case 5:
		for left := n; left > 0; {
			c := []int{1023, 1024, 1025, 2048, 512}[rng.Intn(5)]
			cuts = append(cuts, c)
			left -= c
		}
	}
	return cuts
}

// GenScript draws a reader behaviour over the given content.
func GenScript(rng *hx.Rng, content []Piece, meta *hx.Meta, allowErr bool) Script {
	n := len(Cat(content))
	s := Script{Wire: content, Cuts: GenCuts(rng, n, meta), Fin: "eof"}
	switch c := rng.Intn(10); {
	case c < 3 && n > 0:
		s.Fin, s.K = "dataeof", 1+rng.Intn(minInt(n, 9))
	case c == 3 && allowErr:
		s.Fin = "err"
	}
	meta.Count("reader_final", s.Fin)
	return s
}

func minInt(a, b int) int {
	if a < b {
		return a
	}
	return b
}

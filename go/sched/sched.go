// Package sched is a deterministic cooperative scheduler for goroutines that
// park at go-netty's verification hooks (netty.VerifSched).  Exactly one
// registered goroutine runs at a time, from one hook to the next; the harness
// decides who runs next.  Goroutines are identified by their runtime id.
package sched

import (
	"runtime"
	"strconv"
	"strings"
	"sync"
	"time"
)

type Thread struct {
	Name    string
	Index   int // spawn order = index in the model's thread list
	Point   string
	Steps   int
	enabled func() bool
	done    bool
	resume  chan struct{}
	polls   int
}

func (t *Thread) Done() bool { return t.done }
func (t *Thread) Enabled() bool {
	return !t.done && (t.enabled == nil || t.enabled())
}

type Step struct {
	Thread int
	Name   string
	Point  string
}

type Sched struct {
	mu         sync.Mutex
	byGid      map[int64]*Thread
	All        []*Thread
	ev         chan *Thread
	Trace      []Step
	NStep      int
	OnStep     func(t *Thread)         // called just before t is resumed (scheduler goroutine)
	Skip       func(point string) bool // hooks that are not scheduling points in this harness (run through)
	Unfair     bool                    // no fairness bound on polling threads
	MaxSteps   int                     // 0 = unbounded; Run stops (Aborted) after that many steps: some goroutine spins for ever
	Aborted    bool
	StuckAfter time.Duration // 0 = wait for ever; else Run gives up when the resumed goroutine reaches no hook in time
	Stuck      *Thread       // the goroutine that blocked outside every hook (e.g. in a select the scheduler did not expect to block)
}

func gid() int64 {
	var buf [64]byte
	n := runtime.Stack(buf[:], false)
	f := strings.Fields(string(buf[:n]))
	id, _ := strconv.ParseInt(f[1], 10, 64)
	return id
}

func New() *Sched { return &Sched{byGid: map[int64]*Thread{}, ev: make(chan *Thread, 256)} }

// Spawn registers a new schedulable thread parked at "start".
func (s *Sched) Spawn(name string, fn func()) *Thread {
	t := &Thread{Name: name, resume: make(chan struct{}), Point: "start"}
	s.mu.Lock()
	t.Index = len(s.All)
	s.All = append(s.All, t)
	s.mu.Unlock()
	registered := make(chan struct{})
	go func() {
		s.mu.Lock()
		s.byGid[gid()] = t
		s.mu.Unlock()
		close(registered)
		<-t.resume
		fn()
		t.done = true
		t.Point = "done"
		s.ev <- t
	}()
	<-registered
	return t
}

// Yield implements netty.VerifSched: park the calling goroutine at a hook.
// Goroutines the scheduler does not know run through.
func (s *Sched) Yield(point string, enabled func() bool) {
	s.mu.Lock()
	t := s.byGid[gid()]
	s.mu.Unlock()
	if t == nil || (s.Skip != nil && s.Skip(point)) {
		return
	}
	t.Point, t.enabled = point, enabled
	s.ev <- t
	<-t.resume
}

// Current returns the thread of the calling goroutine (nil if unregistered).
func (s *Sched) Current() *Thread {
	s.mu.Lock()
	defer s.mu.Unlock()
	return s.byGid[gid()]
}

// EnabledThreads lists the threads that could run now.  A closer that keeps
// polling yields to the others after a few polls in a row (fairness bound, so
// that every execution is finite).
func (s *Sched) EnabledThreads() []*Thread {
	s.mu.Lock()
	defer s.mu.Unlock()
	var en []*Thread
	for _, t := range s.All {
		if t.Enabled() {
			en = append(en, t)
		}
	}
	if len(en) > 1 && !s.Unfair {
		var en2 []*Thread
		for _, t := range en {
			if !(isPoll(t.Point) && t.polls >= 4) {
				en2 = append(en2, t)
			}
		}
		if len(en2) > 0 {
			en = en2
		}
	}
	return en
}

func isPoll(p string) bool { return p == "c.poll" || p == "c.takeover" || p == "c.sleep" }

// Run drives the threads until none is enabled.  choose picks among the enabled ones.
func (s *Sched) Run(choose func(en []*Thread) *Thread) {
	for {
		en := s.EnabledThreads()
		if len(en) == 0 {
			return
		}
		if s.MaxSteps > 0 && s.NStep >= s.MaxSteps {
			s.Aborted = true
			return
		}
		t := choose(en)
		s.Trace = append(s.Trace, Step{t.Index, t.Name, t.Point})
		s.NStep++
		t.Steps++
		if isPoll(t.Point) {
			t.polls++
		} else {
			for _, u := range s.All {
				u.polls = 0
			}
		}
		if s.OnStep != nil {
			s.OnStep(t)
		}
		t.enabled = nil
		t.resume <- struct{}{}
		if s.StuckAfter > 0 {
			select {
			case <-s.ev:
			case <-time.After(s.StuckAfter):
				s.Stuck = t
				return
			}
		} else {
			<-s.ev
		}
	}
}

// Parked lists the threads that are not finished (blocked for ever at quiescence).
func (s *Sched) Parked() []*Thread {
	var out []*Thread
	for _, t := range s.All {
		if !t.done {
			out = append(out, t)
		}
	}
	return out
}

// Executor turns executor actions into schedulable threads ("executor start-up delayed arbitrarily").
type Executor struct {
	S *Sched
	n int
}

func (e *Executor) Exec(a func()) {
	e.n++
	e.S.Spawn("sender"+strconv.Itoa(e.n), a)
}

// Package probe provides scriptable pipeline handlers: any subset of the six
// handler interfaces, with a behaviour per event kind taken from a table that
// the Coq model reads too (coq/Model/Dispatch.v `beh`).
package probe

import (
	"fmt"
	"sync"

	netty "github.com/go-netty/go-netty"
)

const (
	KActive = iota
	KRead
	KWrite
	KException
	KInactive
	KEvent
)

var KindCoq = []string{"KActive", "KRead", "KWrite", "KException", "KInactive", "KEvent"}

// behaviours
const (
	BForward = iota
	BStop
	BPanic
	BWriteBack
	BTriggerOn
	BClose
	BCloseFwd // closes the channel, then forwards the event (h_life only: not a behaviour of the Coq dispatch model)
)

// panic value kinds
const (
	PErr = iota
	PStr
	PRuntime
	PNetErr
	PStrErr // an error value that ALSO has a String() method (stringer-generated error enums): still an error
)

type Beh struct {
	B       int  `json:"b"`
	PKind   int  `json:"pk,omitempty"`
	Timeout bool `json:"timeout,omitempty"`
	Wrap    bool `json:"wrap,omitempty"` // net.Error panic values: raise an error WRAPPING the net.Error (as codecs do)
	ID      int  `json:"id,omitempty"`
}

func (b Beh) Coq() string {
	switch b.B {
	case BForward:
		return "BForward"
	case BStop:
		return "BStop"
	case BWriteBack:
		return "BWriteBack"
	case BTriggerOn:
		return "BTriggerOn"
	case BClose:
		return fmt.Sprintf("(BClose %d)", b.ID)
	}
	switch b.PKind {
	case PErr, PStrErr:
		return fmt.Sprintf("(BPanic (PErr %d))", b.ID)
	case PStr:
		return fmt.Sprintf("(BPanic (PStr %d))", b.ID)
	case PRuntime:
		return fmt.Sprintf("(BPanic (PRuntime %d))", b.ID)
	}
	return fmt.Sprintf("(BPanic (PNetErr %v %d))", b.Timeout, b.ID)
}

// IDErr is an error with an identity the harness can recognise later.
type IDErr struct{ ID int }

func (e *IDErr) Error() string { return fmt.Sprintf("iderr-%d", e.ID) }

// StrErr is an error that is also a fmt.Stringer.
type StrErr struct{ ID int }

func (e *StrErr) Error() string  { return fmt.Sprintf("strerr-%d", e.ID) }
func (e *StrErr) String() string { return fmt.Sprintf("StrErr(%d)", e.ID) }

type NetErr struct {
	ID int
	TO bool
}

func (e *NetErr) Error() string   { return fmt.Sprintf("neterr-%d", e.ID) }
func (e *NetErr) Timeout() bool   { return e.TO }
func (e *NetErr) Temporary() bool { return false }

// Ev is one entry of the shared log.
type Ev struct {
	Kind  string `json:"k"` // visit | write | close | exc
	Pos   int    `json:"pos,omitempty"`
	HID   int    `json:"hid,omitempty"`
	EKind int    `json:"ek,omitempty"`
	Cls   int    `json:"cls,omitempty"` // close / exception value class: 1 same, 2 wrapped, 3 explicit close error
	CtxOK bool   `json:"ctxok,omitempty"`
}

type Log struct {
	mu sync.Mutex
	Ev []Ev
}

func (l *Log) Add(e Ev) {
	l.mu.Lock()
	l.Ev = append(l.Ev, e)
	l.mu.Unlock()
}

// Probe is the scripted state shared by the wrapper types.
type Probe struct {
	ID   int
	Caps int
	Beh  [6]Beh
	Log  *Log
	// PanicVals records the panic values raised so that their identity can be recognised
	Vals *Values
}

type Values struct {
	mu     sync.Mutex
	Raised []interface{}
	Closes []error
}

func (v *Values) raise(x interface{}) interface{} {
	v.mu.Lock()
	v.Raised = append(v.Raised, x)
	v.mu.Unlock()
	return x
}

// Classify tells how an exception/close value relates to what the probes raised.
func (v *Values) Classify(err error) int {
	if err == nil {
		return 0
	}
	v.mu.Lock()
	defer v.mu.Unlock()
	for _, c := range v.Closes {
		if c == err {
			return 3
		}
	}
	for _, r := range v.Raised {
		if e, ok := r.(error); ok && e == err {
			return 1
		}
	}
	for _, r := range v.Raised {
		if _, ok := r.(error); !ok && fmt.Sprint(r) == err.Error() {
			return 2
		}
	}
	// an error that merely carries the TEXT of an error some probe raised (its Error() or String()), without being
	// that value: the panic value's identity was lost on the way
	for _, r := range v.Raised {
		if e, ok := r.(error); ok && e != err {
			if e.Error() == err.Error() {
				return 4
			}
			if st, isS := r.(fmt.Stringer); isS && st.String() == err.Error() {
				return 4
			}
		}
	}
	// runtime errors and errors the library or the mock transport created themselves: nothing to compare them with
	return 1
}

func position(ctx netty.HandlerContext) (pos int, ok bool) {
	pl := ctx.Channel().Pipeline()
	for i := 0; i < pl.Size(); i++ {
		if pl.ContextAt(i) == ctx {
			return i, ctx.Handler() != nil
		}
	}
	return -1, false
}

func (p *Probe) on(kind int, ctx netty.HandlerContext, arg interface{}) {
	pos, ok := position(ctx)
	// the context must be bound to this very handler at its own position
	if w, isW := ctx.Handler().(interface{ probeID() int }); !isW || w.probeID() != p.ID {
		ok = false
	}
	ev := Ev{Kind: "visit", Pos: pos, HID: p.ID, EKind: kind, CtxOK: ok}
	if kind == KException {
		ev.Cls = p.Vals.Classify(arg.(error))
	}
	p.Log.Add(ev)
	b := p.Beh[kind]
	forward := func() {
		switch kind {
		case KActive:
			ctx.(netty.ActiveContext).HandleActive()
		case KRead:
			ctx.(netty.InboundContext).HandleRead(arg)
		case KWrite:
			ctx.(netty.OutboundContext).HandleWrite(arg)
		case KException:
			ctx.(netty.ExceptionContext).HandleException(arg.(error))
		case KInactive:
			var ex error
			if arg != nil {
				ex = arg.(error)
			}
			ctx.(netty.InactiveContext).HandleInactive(ex)
		case KEvent:
			ctx.(netty.EventContext).HandleEvent(arg)
		}
	}
	switch b.B {
	case BForward:
		forward()
	case BStop:
	case BPanic:
		switch b.PKind {
		case PErr:
			panic(p.Vals.raise(&IDErr{b.ID}))
		case PStrErr:
			panic(p.Vals.raise(&StrErr{b.ID}))
		case PStr:
			panic(p.Vals.raise(fmt.Sprintf("panic-string-%d", b.ID)))
		case PRuntime:
			var m map[int]int
			p.Vals.raise(nil)
			m[b.ID] = 1 // a genuine runtime error
		case PNetErr:
			// the net.Error itself, or an error wrapping it, as the frame codecs and utils.Assert
			// produce ("read header fail ...: %w"): errors.As must find it either way
			var e error = &NetErr{b.ID, b.Timeout}
			if b.Wrap {
				e = fmt.Errorf("wrapped by a codec: %w", e)
			}
			panic(p.Vals.raise(e))
		}
	case BWriteBack:
		ctx.Write([]byte{0xAB, byte(p.ID)})
	case BTriggerOn:
		ctx.Trigger(fmt.Sprintf("event-from-%d", p.ID))
		forward()
	case BClose:
		e := &IDErr{1000 + b.ID}
		p.Vals.mu.Lock()
		p.Vals.Closes = append(p.Vals.Closes, e)
		p.Vals.mu.Unlock()
		ctx.Close(e)
	case BCloseFwd:
		e := &IDErr{1000 + b.ID}
		p.Vals.mu.Lock()
		p.Vals.Closes = append(p.Vals.Closes, e)
		p.Vals.mu.Unlock()
		ctx.Close(e)
		forward()
	}
}

func (p *Probe) probeID() int { return p.ID }

// ProbeID exposes the identity to harnesses.
func (p *Probe) ProbeID() int { return p.ID }
